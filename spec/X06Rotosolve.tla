----------------------------- MODULE X06Rotosolve -----------------------------
(***************************************************************************)
(* X06 part (ii): the rotosolve optimiser                                  *)
(* (tangelo.toolboxes.optimizers.rotosolve: rotosolve, rotosolve_step).     *)
(*                                                                         *)
(* Objectives: f(theta) = SUM_t coef_t PROD_j g_tj(theta_j - phi_j),        *)
(* g in {1, cos, sin} - what a circuit with every parameter in exactly one  *)
(* rotation gate gives (RY(theta_j) RY(-phi_j)|0>: <Z_j> = cos, <X_j> = sin *)
(* of theta_j - phi_j).  Angles live on the grid k*pi/4 (k mod 8), energies *)
(* are exact elements (A + B sqrt 2)/2^N of Z[sqrt 2]/2^N.                  *)
(*                                                                         *)
(* The machine is structured like the code:                                 *)
(*   Start        energy_old = f(p0); a run with maxiter = 0 returns it     *)
(*   StepCoord    rotosolve_step for coordinate k+1: three probes           *)
(*                m1 = f(theta_i = 0), m2 = f(pi/2), m3 = f(-pi/2),         *)
(*                theta_i := -pi/2 - atan2(2 m1 - m2 - m3, m2 - m3) wrapped *)
(*                into [-pi, pi]  (atan2 evaluated exactly on the grid; a    *)
(*                minimiser off the grid ends the behaviour: "offgrid")     *)
(*                flat coordinate (m1 = m2 = m3): every angle is a          *)
(*                minimiser, the spec allows the values FlatChoices          *)
(*   EndSweep     energy_new = f(p); stop if |energy_new - energy_old| <=    *)
(*                ftol or after maxiter sweeps, else energy_old := new      *)
(* Invariants (S): each step puts the coordinate at a minimiser over the     *)
(* whole grid, energies never increase (per step and per sweep), the        *)
(* returned energy is f(returned params), the loop stops exactly by the      *)
(* documented rule, an unchanged sweep stops for every ftol >= 0.            *)
(* Complete behaviours are exported (BH) and replayed on the real rotosolve  *)
(* with the same objective (closure and real circuit + qubit operator).      *)
(***************************************************************************)
EXTENDS X06Defs, Json, IOUtils

CONSTANTS N,            \* number of parameters
          MaxIters,     \* set of maxiter values
          Ftols,        \* set of indices into FtolTable
          Export

Objs == JsonDeserialize(IOEnv.X06_OBJS)

VARIABLES o, p0, p, k, nit, eold, sweeps, maxiter, ftol, status, hist, last
vars == <<o, p0, p, k, nit, eold, sweeps, maxiter, ftol, status, hist, last>>

Grid == 0..7
\* cos(k pi/4) * 2 and sin(k pi/4) * 2 as elements of Z[sqrt 2]
CosT == <<  <<2, 0>>, <<0, 1>>, <<0, 0>>, <<0, -1>>, <<-2, 0>>, <<0, -1>>, <<0, 0>>, <<0, 1>>  >>
Cos2(kk) == CosT[(kk % 8) + 1]
Sin2(kk) == Cos2(kk + 6)                       \* sin x = cos(x - pi/2)
Factor(t, kk) == IF t = 0 THEN <<2, 0>> ELSE IF t = 1 THEN Cos2(kk) ELSE Sin2(kk)
TermVal(tm, phi, q) ==
  LET RECURSIVE pr(_)
      pr(j) == IF j > N THEN SInt(tm.coef) ELSE SMul(Factor(tm.f[j], q[j] - phi[j] + 8), pr(j + 1))
  IN pr(1)
\* 2^N * f(q)
F(ob, q) == SSum(LAMBDA t : TermVal(ob.terms[t], ob.phi, q), Len(ob.terms))
Scale == 2 ^ N

\* ftol as a rational; index 1 is the default 1e-5 of the code, modelled as "smaller than every non-zero
\* energy difference" - guarded by GapOK below
FtolTable == << <<1, 100000>>, <<0, 1>>, <<1, 2>>, <<1, 1>>, <<3, 1>> >>
\* |d| / 2^N <= ftol
WithinFtol(d, ft) == IF ft = 1 THEN d = SZero
                     ELSE LET r == FtolTable[ft] IN SLe(SScale(r[2], SAbs(d)), SInt(r[1] * Scale))
\* |d| / 2^N and ftol are not within 1/64 of each other (robust float comparison in the replay); d = 0 always robust
GapOK(d, ft) == \/ d = SZero
                \/ LET r == IF ft = 1 THEN <<0, 1>> ELSE FtolTable[ft]
                       x == SAbs(SSub(SScale(64 * r[2], SAbs(d)), SInt(64 * r[1] * Scale)))
                   IN SLe(SInt(r[2] * Scale), x)

\* atan2 on the grid, in units of pi/4; 99 = not a grid angle
Atan2G(y, x) ==
  LET sy == SSign(y)
      sx == SSign(x)
  IN IF sy = 0 THEN (IF sx >= 0 THEN 0 ELSE 4)
     ELSE IF sx = 0 THEN 2 * sy
     ELSE IF SAbs(y) = SAbs(x) THEN (IF sx > 0 THEN sy ELSE 3 * sy)
     ELSE 99
Wrap(t) == IF t < -4 THEN t + 8 ELSE IF t > 4 THEN t - 8 ELSE t

NoStep == [i |-> 0, before |-> <<>>, flat |-> FALSE]

Init ==
  /\ o \in 1..Len(Objs)
  /\ p0 \in [1..N -> Grid]
  /\ maxiter \in MaxIters /\ ftol \in Ftols
  /\ p = p0 /\ k = 0 /\ nit = 0 /\ sweeps = <<>> /\ hist = <<>> /\ last = NoStep
  /\ eold = F(Objs[o], p0)
  /\ status = "start"

Start ==
  /\ status = "start"
  /\ status' = IF maxiter = 0 THEN "done" ELSE "run"
  /\ UNCHANGED <<o, p0, p, k, nit, eold, sweeps, maxiter, ftol, hist, last>>

FlatChoices(i) == {6, p[i]}          \* -pi/2 (what atan2(0, 0) = 0 gives) or "leave it"; any angle is a minimiser

StepCoord ==
  /\ status = "run" /\ k < N
  /\ LET i  == k + 1
         ob == Objs[o]
         m1 == F(ob, [p EXCEPT ![i] = 0])
         m2 == F(ob, [p EXCEPT ![i] = 2])
         m3 == F(ob, [p EXCEPT ![i] = 6])
         y  == SSub(SScale(2, m1), SAdd(m2, m3))
         x  == SSub(m2, m3)
         a  == Atan2G(y, x)
         flat == y = SZero /\ x = SZero
     IN IF a = 99
        THEN /\ status' = "offgrid"
             /\ UNCHANGED <<p, k, hist, last>>
        ELSE /\ \E th \in (IF flat THEN FlatChoices(i) ELSE {(Wrap(-2 - a) + 8) % 8}) :
                  /\ p' = [p EXCEPT ![i] = th]
                  /\ hist' = Append(hist, [i |-> i, th |-> th, flat |-> flat])
             /\ last' = [i |-> i, before |-> p, flat |-> flat]
             /\ k' = k + 1
             /\ UNCHANGED status
  /\ UNCHANGED <<o, p0, nit, eold, sweeps, maxiter, ftol>>

EndSweep ==
  /\ status = "run" /\ k = N
  /\ LET enew == F(Objs[o], p)
         d    == SSub(enew, eold)
     IN /\ sweeps' = Append(sweeps, enew)
        /\ nit' = nit + 1
        /\ IF ~GapOK(d, ftol) THEN status' = "borderline" /\ UNCHANGED <<eold, k>>
           ELSE IF WithinFtol(d, ftol) \/ nit + 1 = maxiter THEN status' = "done" /\ UNCHANGED <<eold, k>>
           ELSE status' = "run" /\ eold' = enew /\ k' = 0
  /\ last' = NoStep
  /\ UNCHANGED <<o, p0, p, maxiter, ftol, hist>>

Next == Start \/ StepCoord \/ EndSweep

\* ---- invariants ---------------------------------------------------------------
TypeOK == p \in [1..N -> Grid] /\ k \in 0..N /\ nit \in 0..maxiter /\ Len(sweeps) = nit
\* the updated coordinate is a minimiser over the whole grid (all angles equal when flat)
StepMinimises ==
  last.i # 0 => \A g \in Grid :
      LET alt == F(Objs[o], [p EXCEPT ![last.i] = g]) IN
      IF last.flat THEN alt = F(Objs[o], p) ELSE SLe(F(Objs[o], p), alt)
StepMonotone == last.i # 0 => SLe(F(Objs[o], p), F(Objs[o], last.before))
SweepMonotone == \A j \in 1..Len(sweeps) : SLe(sweeps[j], IF j = 1 THEN F(Objs[o], p0) ELSE sweeps[j - 1])
\* what rotosolve returns: (energy_new, var_params); with maxiter = 0 the initial energy
RetEnergy == IF nit = 0 THEN eold ELSE sweeps[nit]
ReturnConsistent == status = "done" => RetEnergy = F(Objs[o], p)
PrevE(j) == IF j = 1 THEN F(Objs[o], p0) ELSE sweeps[j - 1]
StopRule ==
  status = "done" =>
     /\ \A j \in 1..(nit - 1) : ~WithinFtol(SSub(sweeps[j], PrevE(j)), ftol)
     /\ nit = maxiter \/ WithinFtol(SSub(sweeps[nit], PrevE(nit)), ftol)
\* a sweep that changes nothing ends the run whatever ftol >= 0 is
PrevParams == IF nit = 1 THEN p0 ELSE [j \in 1..N |-> hist[Len(hist) - 2 * N + j].th]
FixedPointStops == (status = "run" /\ k = 0 /\ nit >= 1) => p # PrevParams
\* vacuity guards are evaluated by the driver on the exported behaviours (counts of flat steps, sweeps, stop reasons)

ExportBH == (Export /\ status \in {"done", "offgrid", "borderline"}) =>
  PrintT(<<"BH", ToJson([o |-> o, p0 |-> p0, maxiter |-> maxiter, ftol |-> ftol, status |-> status, steps |-> hist,
                         sweeps |-> sweeps, e |-> RetEnergy, p |-> p, nit |-> nit, e0 |-> F(Objs[o], p0)])>>)
=============================================================================
