------------------------------- MODULE X06Trace -------------------------------
(***************************************************************************)
(* X06, direction code -> spec: artefacts recorded from the implementation  *)
(* are judged here (one verdict per job).                                   *)
(*                                                                         *)
(* kind "resample": one call of get_resampled_frequencies(freq, ncount).    *)
(*    support  keys (as integers) of the input histogram with positive      *)
(*             weight;  weights w_i (integers, total wtot)                   *)
(*    keys     the returned dictionary: <<key as integer, length of the      *)
(*             bitstring, count = frequency * ncount (-1 if not integral)>>  *)
(*    A resample of ncount shots is a multiset of ncount draws from the      *)
(*    support: keys within the support and pairwise distinct, bitstrings of  *)
(*    the input width, counts positive and summing to ncount; with stat =    *)
(*    TRUE every count (also the absent ones: 0) lies within 6 standard      *)
(*    deviations of ncount * w_i / wtot.                                     *)
(*                                                                         *)
(* kind "rotorun": one run of rotosolve on an arbitrary sinusoidal           *)
(*    objective (entangling circuit), energies as fixed-point integers:      *)
(*    e0, energies after each sweep, returned energy, objective at the       *)
(*    returned parameters, number of coordinate updates, ftol, maxiter.      *)
(*    Same rules as the machine X06Rotosolve: sweeps never increase the      *)
(*    energy, one update per coordinate per sweep, the run stops at the      *)
(*    first sweep whose change is <= ftol or after maxiter sweeps, the       *)
(*    returned energy is the last one and equals f(returned params).         *)
(*    slack = fixed-point rounding allowance.                                 *)
(***************************************************************************)
EXTENDS X06Defs, Json, IOUtils

Jobs == JsonDeserialize(IOEnv.VERIF_JOBS)
VARIABLE i

SeqSet(s) == {s[x] : x \in 1..Len(s)}
SumSeq(s) == FoldLeft(LAMBDA acc, x : acc + x, 0, s)

ResampleVerdict(jb) ==
  LET ks == jb.keys
      K  == 1..Len(ks)
      cnt(key) == IF \E x \in K : ks[x][1] = key THEN ks[CHOOSE x \in K : ks[x][1] = key][3] ELSE 0
  IN IF \E x \in K : ks[x][2] # jb.width THEN "bad-width"
     ELSE IF \E x \in K : ks[x][1] \notin SeqSet(jb.support) THEN "key-outside-support"
     ELSE IF \E x, y \in K : x # y /\ ks[x][1] = ks[y][1] THEN "duplicate-key"
     ELSE IF \E x \in K : ks[x][3] <= 0 THEN "bad-count"
     ELSE IF SumSeq([x \in K |-> ks[x][3]]) # jb.ncount THEN "count-sum"
     ELSE IF jb.stat /\ \E s \in 1..Len(jb.support) :
                LET w == jb.weights[s]
                    d == cnt(jb.support[s]) * jb.wtot - jb.ncount * w
                IN d * d > 36 * jb.ncount * w * (jb.wtot - w)
          THEN "outside-6-sigma"
     ELSE "ok"

RotoVerdict(jb) ==
  LET sw == jb.sweeps
      m  == Len(sw)
      prev(x) == IF x = 1 THEN jb.e0 ELSE sw[x - 1]
  IN IF m = 0 \/ m > jb.maxiter THEN "sweep-count"
     ELSE IF jb.nsteps # jb.n * m THEN "step-count"
     ELSE IF \E x \in 1..m : sw[x] > prev(x) + jb.slack THEN "energy-increased"
     ELSE IF \E x \in 1..(m - 1) : Abs(sw[x] - prev(x)) <= jb.ftol - jb.slack THEN "stop-late"
     ELSE IF m < jb.maxiter /\ Abs(sw[m] - prev(m)) > jb.ftol + jb.slack THEN "stop-early"
     ELSE IF Abs(jb.ret - sw[m]) > jb.slack THEN "returned-energy"
     ELSE IF Abs(jb.fret - jb.ret) > jb.slack THEN "energy-is-not-f(params)"
     ELSE "ok"

Verdict(jb) == IF jb.kind = "resample" THEN ResampleVerdict(jb) ELSE RotoVerdict(jb)

JInit == i \in 1..Len(Jobs)
JNext == i > 0 /\ PrintT(<<"V", Jobs[i].id, Verdict(Jobs[i])>>) /\ i' = 0
=============================================================================
