------------------------------ MODULE X07Clock ------------------------------
(***************************************************************************)
(* S-part of X07: the loop of get_discrete_clock_circuit as a state machine  *)
(* over computational-basis clock values (the circuit is linear, so basis    *)
(* values decide every superposition).  One action per emitted block:        *)
(*   Select : x-ladder(i) . multi-product(control = clock) . x-ladder(i)     *)
(*            -> step i acts on the system iff the clock register holds i    *)
(*   Incr   : get_adder_circuit(clock, +1)                                   *)
(*   Final  : get_adder_circuit(clock, -n_time_steps)                        *)
(* The register has nb = ceil(log2 T) qubits (as in the code), also when T   *)
(* is not a power of two.  Properties: started at 0 every step is applied    *)
(* exactly once and in order, and the clock returns to 0; started anywhere   *)
(* else nothing is applied and the clock returns to its start value; the     *)
(* closed form ClockApplied / ClockFinal used by the trace spec agrees with  *)
(* the machine.  Every complete behaviour is exported ("CLK") and replayed   *)
(* on the real generator.                                                    *)
(***************************************************************************)
EXTENDS X07Defs

CONSTANT MaxT
VARIABLES T, c0, c, i, pc, applied

vars == <<T, c0, c, i, pc, applied>>
NB == CeilLog2(T)
N  == Pow2(NB)

Init == /\ T \in 1..MaxT
        /\ c0 \in 0..(Pow2(CeilLog2(T)) - 1)
        /\ c = c0 /\ i = 0 /\ pc = "select" /\ applied = <<>>

Select == /\ pc = "select" /\ i < T
          /\ applied' = IF c = i THEN Append(applied, i) ELSE applied
          /\ pc' = "incr"
          /\ UNCHANGED <<T, c0, c, i>>
Incr   == /\ pc = "incr"
          /\ c' = (c + 1) % N
          /\ i' = i + 1
          /\ pc' = IF i + 1 = T THEN "final" ELSE "select"
          /\ UNCHANGED <<T, c0, applied>>
Final  == /\ pc = "final"
          /\ c' = (c + N * T - T) % N
          /\ pc' = "done"
          /\ UNCHANGED <<T, c0, i, applied>>
Next == Select \/ Incr \/ Final

Done == pc = "done"
OrderedOnce   == (Done /\ c0 = 0) => (applied = TLCEval([a \in 1..T |-> a - 1]) /\ c = 0)
NothingElse   == (Done /\ c0 # 0) => (applied = <<>> /\ c = c0)
ClosedForm    == Done => (applied = ClockApplied(T, NB, c0) /\ c = ClockFinal(T, NB, c0))
ClockInRange  == c \in 0..(N - 1)
Export == Done => PrintT(<<"CLK", ToJson([T |-> T, c0 |-> c0, applied |-> applied, c |-> c])>>)
=============================================================================
