------------------------------ MODULE X07Defs ------------------------------
(***************************************************************************)
(* X07 - the circuit generators of tangelo/toolboxes/circuits implement the  *)
(* operator their docstring states.  Definitions without variables, shared   *)
(* by the S-specs (X07Models, X07Clock) and the trace spec X07Trace.          *)
(*                                                                         *)
(* Conventions (Gates.tla): qubit 0 is the most significant bit of the       *)
(* amplitude index.  RegVal(x, L): FIRST listed qubit = LEAST significant    *)
(* (grid registers, adder registers, get_qft_circuit).  MsbVal(x, L): FIRST  *)
(* listed qubit = MOST significant (LCU / multi-product index registers:     *)
(* StateVector(order="lsq_first") amplitudes, np.binary_repr patterns).      *)
(*                                                                         *)
(* SELECT STAGE.  st = [terms, anc, ctrl, zctrl]; terms[j] = [w, ph]:        *)
(*    on the subspace  ctrl = 1..1, zctrl = 0..0, MsbVal(anc) = j-1 < #terms *)
(*    the stage applies  zeta^ph_j * P_(w_j) ; identity elsewhere.           *)
(* This one definition covers USelect of get_uprep_uselect, the k stages and *)
(* the -I stage of USelectkl, sign_flip (terms = <<-1>>, zctrl = register),  *)
(* zero_controlled_cnot and the reflections.                                 *)
(***************************************************************************)
EXTENDS C20Defs

RingOfJson(e) == Norm([c |-> TLCEval([p \in 1..HM |-> e.c[p]]), k |-> e.k])

MsbVal(x0, L, n) == RegVal(x0, RevSeq(L), n)
RECURSIVE SortedSeq(_)
SortedSeq(S) == IF S = {} THEN <<>> ELSE LET m == CHOOSE x \in S : \A y \in S : x <= y IN <<m>> \o SortedSeq(S \ {m})
ZeroOn(x0, L, n) == \A j \in 1..Len(L) : BitAt(x0, L[j], n) = 0

\* ---- select stages ----------------------------------------------------------
StageVec(st, psi, n) ==
  LET pv == TLCEval([j \in 1..Len(st.terms) |-> QWordVec(st.terms[j].w, psi, n)])
  IN TLCEval([x \in 1..Dim(n) |->
       LET x0 == x - 1
           j  == MsbVal(x0, st.anc, n) + 1
       IN IF CtrlOn(x0, st.ctrl, n) /\ ZeroOn(x0, st.zctrl, n) /\ j <= Len(st.terms)
          THEN Mul(Zeta(st.terms[j].ph), pv[j][x]) ELSE psi[x]])

RECURSIVE StagesVec(_, _, _, _)
StagesVec(sts, psi, n, i) == IF i > Len(sts) THEN psi ELSE StagesVec(sts, StageVec(sts[i], psi, n), n, i + 1)

StageOK(st, n) ==
  /\ IsRegister(st.anc \o st.ctrl \o st.zctrl, n)
  /\ \A j \in 1..Len(st.terms) :
        /\ Len(st.terms[j].w) = n
        /\ \A q \in SeqSet(st.anc \o st.ctrl \o st.zctrl) : st.terms[j].w[q + 1] = 0

\* ---- algorithm model of the code's USelect construction -----------------------
\* pattern of index j0 on the register anc (first = most significant): X on the qubits whose bit is 0
XLadder(j0, anc) ==
  LET w == Len(anc)
      S == {q \in 1..w : (j0 \div Pow2(w - q)) % 2 = 0}
  IN TLCEval([a \in 1..Cardinality(S) |-> G("X", <<anc[SortedSeq(S)[a]]>>, <<>>, 0)])
\* phase zeta^ph on the controlled subspace:  CRZ(-2 ph) then CPHASE(2 ph) on target t:
\*   RZ(2f) = diag(e^{-if}, e^{if}), PHASE(-2f) = diag(1, e^{-2if}):  product e^{-if} 1;  f = -ph
PhaseGates(ph, t, ctrl) == << G("CRZ", <<t>>, ctrl, (0 - 2) * ph), G("CPHASE", <<t>>, ctrl, 2 * ph) >>
LetterName(l) == IF l = 1 THEN "CX" ELSE IF l = 2 THEN "CY" ELSE "CZ"
WordGates(w, ctrl, n) ==
  LET S == {q \in 1..n : w[q] # 0}
  IN TLCEval([a \in 1..Cardinality(S) |-> LET q == SortedSeq(S)[a] IN G(LetterName(w[q]), <<q - 1>>, ctrl, 0)])
RECURSIVE SelectModelFrom(_, _, _, _, _)
SelectModelFrom(terms, anc, ctrl, n, j) ==
  IF j > Len(terms) THEN <<>>
  ELSE XLadder(j - 1, anc) \o PhaseGates(terms[j].ph, 0, anc \o ctrl) \o WordGates(terms[j].w, anc \o ctrl, n)
       \o XLadder(j - 1, anc) \o SelectModelFrom(terms, anc, ctrl, n, j + 1)
SelectModel(terms, anc, ctrl, n) == SelectModelFrom(terms, anc, ctrl, n, 1)

\* ---- block encodings -----------------------------------------------------------
OpOfJson(op) == OpFromTerms(TLCEval([j \in 1..Len(op) |-> [w |-> op[j].w, c |-> RingOfJson(op[j].c)]]))
\* amplitude index: system value xs on qubits 0..sys-1, ones exactly on the listed qubits `on`, zeros elsewhere
InIdx(xs, sys, on, n) == xs * Pow2(n - sys) + SumSeq(TLCEval([j \in 1..Len(on) |-> Pow2(n - 1 - on[j])]), Len(on))
SubSeqOf(s, S) == LET T == SortedSeq(S) IN TLCEval([a \in 1..Len(T) |-> s[T[a]]])

\* ---- grid circuits ---------------------------------------------------------------
\* exp(-i dt [fac (x - x0)^2 + delta]) on the grid x = dx * kv, kv = RegVal(register) (first qubit least significant),
\* in units theta = 2 pi / M:   dt fac dx^2 = C theta,  x0 = R dx / 2,  dt delta = D theta:
\*    phase index (kv) = -( C (2 kv - R)^2 / 4 + D )
QuadOK(C, R, w) == \A kv \in 0..(Pow2(w) - 1) : (C * (2 * kv - R) * (2 * kv - R)) % 4 = 0
QuadPhaseIdx(kv, C, R, D) == 0 - (((C * (2 * kv - R) * (2 * kv - R)) \div 4) + D)
QuadVec(L, ctrl, C, R, D, psi, n) ==
  TLCEval([x \in 1..Dim(n) |-> IF CtrlOn(x - 1, ctrl, n)
                               THEN Mul(Zeta(QuadPhaseIdx(RegVal(x - 1, L, n), C, R, D)), psi[x]) ELSE psi[x]])
\* algorithm model of get_xsquared_circuit (constant on both values of L[1], linear, quadratic incl. both orders of i # j)
XsqModel(L, ctrl, C, R, D) ==
  LET w    == Len(L)
      nm   == IF ctrl = <<>> THEN "PHASE" ELSE "CPHASE"
      k0   == 0 - (((C * R * R) \div 4) + D)
      prs  == TLCEval([a \in 1..(w * (w - 1)) |-> << ((a - 1) \div (w - 1)) + 1,
                        LET r == ((a - 1) % (w - 1)) + 1 IN IF r >= ((a - 1) \div (w - 1)) + 1 THEN r + 1 ELSE r >>])
  IN << G(nm, <<L[1]>>, ctrl, k0), G("X", <<L[1]>>, <<>>, 0), G(nm, <<L[1]>>, ctrl, k0), G("X", <<L[1]>>, <<>>, 0) >>
     \o TLCEval([a \in 1..w |-> G(nm, <<L[a]>>, ctrl, C * R * Pow2(a - 1))])
     \o TLCEval([a \in 1..w |-> G(nm, <<L[a]>>, ctrl, (0 - C) * Pow2(2 * (a - 1)))])
     \o TLCEval([a \in 1..Len(prs) |-> G("CPHASE", <<L[prs[a][2]]>>, <<L[prs[a][1]]>> \o ctrl, (0 - C) * Pow2(prs[a][1] + prs[a][2] - 2))])

\* exp(-i dt p^2 / 2m) = Dft^+ diag(exp(-i C theta pk^2)) Dft on the register, pk = k for k < N/2, k - N otherwise
\* (dt dp^2 / 2m = C theta, dp = 2 pi / (N dx)); kernel K[delta+1] = 1/N SUM_k zeta_N^(k delta) zeta^(-C pk^2)
PsqKernel(w, C) ==
  LET N == Pow2(w)
      unit == M \div N
  IN TLCEval([dl \in 1..N |->
       Mul(Dyadic(1, w), SumRing(TLCEval([k1 \in 1..N |->
             LET k == k1 - 1
                 pk == IF 2 * k < N THEN k ELSE k - N
             IN Zeta((unit * ((k * (dl - 1)) % N)) - (C * pk * pk))]), N))])
PsqVec(L, ctrl, C, psi, n) ==
  LET w == Len(L)
      N == Pow2(w)
      K == PsqKernel(w, C)
  IN TLCEval([y \in 1..Dim(n) |->
       IF ~CtrlOn(y - 1, ctrl, n) THEN psi[y]
       ELSE SumRing(TLCEval([v1 \in 1..N |->
              Mul(K[((RegVal(y - 1, L, n) - (v1 - 1)) % N) + 1], psi[SetReg(y - 1, L, n, v1 - 1) + 1])]), N)])

\* ---- adder / discrete clock ----------------------------------------------------------
\* |v>_L -> |(v + t) mod 2^|L|>_L  (first listed qubit least significant)
AddIdx(x0, L, n, t) == SetReg(x0, L, n, (RegVal(x0, L, n) + t) % Pow2(Len(L)))
\* algorithm model of get_adder_circuit: X on the last listed qubit around a swapped QFT, phases 2 pi t 2^i / N, inverse
AdderModel(L, t) ==
  LET w  == Len(L)
      fl == << G("X", <<L[w]>>, <<>>, 0) >>
  IN fl \o QftModel(L, FALSE, TRUE) \o fl
     \o TLCEval([a \in 1..w |-> G("PHASE", <<L[a]>>, <<>>, t * Pow2(a - 1) * (M \div Pow2(w)))])
     \o fl \o QftModel(L, TRUE, TRUE) \o fl

CeilLog2(x) == CHOOSE b \in 0..30 : Pow2(b) >= x /\ (b = 0 \/ Pow2(b - 1) < x)
\* the clock loop as a pure function: steps applied (in order) when the clock register starts at c0
RECURSIVE ClockAppliedFrom(_, _, _, _)
ClockAppliedFrom(T, nb, c, i) ==
  IF i = T THEN <<>>
  ELSE (IF c = i THEN <<i>> ELSE <<>>) \o ClockAppliedFrom(T, nb, (c + 1) % Pow2(nb), i + 1)
ClockApplied(T, nb, c0) == ClockAppliedFrom(T, nb, c0, 0)
\* T increments, then the final adder of -T
ClockFinal(T, nb, c0) == (((c0 + T) % Pow2(nb)) + Pow2(nb) * T - T) % Pow2(nb)

RECURSIVE ConcatSteps(_, _, _)
ConcatSteps(steps, applied, a) == IF a > Len(applied) THEN <<>> ELSE steps[applied[a] + 1] \o ConcatSteps(steps, applied, a + 1)

\* ---- multi-product formulas: exact rationals through residues modulo small primes -------
RECURSIVE PowMod(_, _, _)
PowMod(b, e, p) == IF e = 0 THEN 1
                   ELSE LET h == PowMod(b, e \div 2, p)
                            s == (h * h) % p
                        IN IF e % 2 = 1 THEN (s * (b % p)) % p ELSE s
InvMod(x, p) == PowMod(x % p, p - 2, p)
RECURSIVE ProdMod(_, _, _)
ProdMod(s, i, p) == IF i = 0 THEN 1 ELSE (ProdMod(s, i - 1, p) * (s[i] % p)) % p
\* a_j = PROD_(i # j) k_j^2 / (k_j^2 - k_i^2)   (the unique solution of SUM a = 1, SUM a_j k_j^(-2m) = 0, m = 1..r-1)
MpCoefMod(ks, j, p) ==
  LET r == Len(ks)
      fs == TLCEval([i \in 1..r |-> IF i = j THEN 1
                ELSE (((ks[j] * ks[j]) % p) * InvMod(ks[j] * ks[j] - ks[i] * ks[i], p)) % p])
  IN ProdMod(fs, r, p)
MpSign(ks, j) == IF Cardinality({i \in 1..Len(ks) : ks[i] > ks[j]}) % 2 = 0 THEN 1 ELSE -1
\* order conditions modulo p for coefficients given as residues
MpOrderConditions(ks, a, p) ==
  LET r == Len(ks)
      sm(m) == SumSeq(TLCEval([j \in 1..r |-> (a[j] * PowMod(InvMod(ks[j], p), 2 * m, p)) % p]), r) % p
  IN /\ sm(0) = 1
     /\ \A m \in 1..(r - 1) : sm(m) = 0
MpPrimeOK(ks, p) == \A i, j \in 1..Len(ks) : (ks[i] % p # 0) /\ (i # j => (ks[j] * ks[j] - ks[i] * ks[i]) % p # 0)
MpPrimes == <<32749, 32719, 32717, 32713, 32707, 32693>>
=============================================================================
