------------------------------ MODULE X07Models ------------------------------
(***************************************************************************)
(* S-part of X07: the algorithm models of the generators (X07Defs:           *)
(* SelectModel = x-ladder + phase pair + controlled Paulis per term,         *)
(* XsqModel = constant/linear/quadratic phase decomposition, AdderModel =    *)
(* flipped swapped QFT + phases + inverse, multi-product coefficients) are   *)
(* model-checked against the DEFINITIONS (StagesVec, QuadVec, AddIdx, order  *)
(* conditions).  One initial state per instance; the invariants are          *)
(* evaluated in every instance.  Instance kinds:                             *)
(*  "sel"  term list (words x phases) of length 1..MaxTerms (incl. lengths   *)
(*         that are not powers of two), 0..1 external controls               *)
(*  "xsq"  register width 1..MaxW, C, R, D over ranges, 0..1 controls        *)
(*  "add"  register width 1..MaxW (any order of qubits), t in -2N..2N        *)
(*  "mp"   every strictly increasing step list k_1 < ... < k_r <= MaxK,      *)
(*         r <= MaxR: closed-form coefficients satisfy SUM a = 1 and          *)
(*         SUM a_j k_j^(-2m) = 0 (m < r) modulo every prime of MpPrimes,      *)
(*         and the signs alternate (largest k positive).                     *)
(***************************************************************************)
EXTENDS X07Defs

CONSTANTS MaxTerms, MaxW, MaxK, MaxR
VARIABLE inst

SelWords == { <<1>>, <<2>>, <<3>>, <<0>> }
SelPhases == {0, M \div 4, M \div 2, M \div 8}
Word2(w, n) == TLCEval([q \in 1..n |-> IF q = 1 THEN w[1] ELSE 0])

SelInstances ==
  { [kind |-> "sel", nt |-> nt, seed |-> sd, nc |-> nc] : nt \in 1..MaxTerms, sd \in 0..5, nc \in 0..1 }
\* deterministic pseudo-random term list from the seed (letters and phases cycle with different periods)
SelTerms(nt, sd, n) ==
  TLCEval([j \in 1..nt |-> [w  |-> Word2(<<1 + ((j + sd) % 3)>>, n),
                            ph |-> ((j * (sd + 1) + sd) % 4) * (M \div 4) + (IF (j + sd) % 5 = 0 THEN M \div 8 ELSE 0)]])

XsqInstances ==
  { [kind |-> "xsq", w |-> w, C |-> c, R |-> r, D |-> dd, nc |-> nc] :
      w \in 1..MaxW, c \in {-4, -1, 1, 3, 4, 8}, r \in {-1, 0, 1, 2, 3, 7}, dd \in {-3, 0, 2}, nc \in 0..1 }
AddInstances ==
  { [kind |-> "add", w |-> w, t |-> tt - 9, rev |-> rv] : w \in 1..MaxW, tt \in 0..18, rv \in BOOLEAN }
MpInstances ==
  { [kind |-> "mp", ks |-> SortedSeq(S)] : S \in { T \in SUBSET (1..MaxK) : Cardinality(T) \in 1..MaxR } }

SInit == inst \in SelInstances \cup XsqInstances \cup AddInstances \cup MpInstances
SNext == UNCHANGED inst

SelExact ==
  inst.kind = "sel" =>
    LET na   == CeilLog2(inst.nt)
        n    == 1 + na + inst.nc
        anc  == TLCEval([a \in 1..na |-> a])
        ctrl == IF inst.nc = 1 THEN <<na + 1>> ELSE <<>>
        tm   == SelTerms(inst.nt, inst.seed, n)
        st   == [terms |-> tm, anc |-> anc, ctrl |-> ctrl, zctrl |-> <<>>]
        gs   == SelectModel(tm, anc, ctrl, n)
    IN /\ AllWellFormed(gs, n)
       /\ StageOK(st, n)
       /\ \A col \in 1..Dim(n) : Run(Basis(col - 1, n), gs, n) = StageVec(st, Basis(col - 1, n), n)

XsqExact ==
  inst.kind = "xsq" =>
    LET n    == inst.w + inst.nc
        L    == TLCEval([a \in 1..inst.w |-> inst.w - a])        \* least significant first = highest index first
        ctrl == IF inst.nc = 1 THEN <<inst.w>> ELSE <<>>
    IN QuadOK(inst.C, inst.R, inst.w) =>
         LET gs == XsqModel(L, ctrl, inst.C, inst.R, inst.D)
         IN /\ AllWellFormed(gs, n)
            /\ \A col \in 1..Dim(n) : Run(Basis(col - 1, n), gs, n) = QuadVec(L, ctrl, inst.C, inst.R, inst.D, Basis(col - 1, n), n)

\* the adder model equals the cyclic shift up to the global phase (-1)^t (X PHASE(pi t) X = (-1)^t PHASE(-pi t))
AddExact ==
  inst.kind = "add" =>
    LET n  == inst.w
        L  == IF inst.rev THEN TLCEval([a \in 1..n |-> n - a]) ELSE TLCEval([a \in 1..n |-> a - 1])
        gs == AdderModel(L, inst.t)
        sg == IF inst.t % 2 = 0 THEN ROne ELSE Neg(ROne)
    IN Pow2(n) <= M =>
       /\ AllWellFormed(gs, n)
       /\ \A col \in 1..Dim(n) : Run(Basis(col - 1, n), gs, n) = ScaleVec(Basis(AddIdx(col - 1, L, n, inst.t), n), sg, Dim(n))

MpOrder ==
  inst.kind = "mp" =>
    \A q \in 1..Len(MpPrimes) :
      LET p == MpPrimes[q]
          a == TLCEval([j \in 1..Len(inst.ks) |-> MpCoefMod(inst.ks, j, p)])
      IN MpPrimeOK(inst.ks, p) => MpOrderConditions(inst.ks, a, p)
MpSigns ==
  inst.kind = "mp" =>
    \A j \in 1..Len(inst.ks) : MpSign(inst.ks, j) = (IF (Len(inst.ks) - j) % 2 = 0 THEN 1 ELSE -1)
=============================================================================
