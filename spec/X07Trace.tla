------------------------------ MODULE X07Trace ------------------------------
(***************************************************************************)
(* V-part of X07: gate lists recorded from tangelo/toolboxes/circuits are    *)
(* evaluated exactly (ring R_M) and compared with the DEFINITION of the      *)
(* operator the generator documents (X07Defs).  Job kinds (field "kind"):    *)
(*  "select" gates must EQUAL the product of the listed select stages        *)
(*           (USelect of get_uprep_uselect, USelectkl, sign_flip,            *)
(*           zero_controlled_cnot): every column, no phase freedom.          *)
(*  "block"  for every system basis state |x>, ancillas `anc` = 0 and every   *)
(*           on/off pattern of the external controls `ctrl`:                 *)
(*             all controls on : (<0|_anc (x) 1) U |x>|0> = A|x>  (mode      *)
(*                               "block") or U|x>|0> = (A|x>)|0> (mode        *)
(*                               "exact": no leakage out of anc = 0);         *)
(*             some control off: U|x>|0> = |x>|0>.                            *)
(*           A = SUM c_j P_j is the INPUT operator (ring coefficients).       *)
(*  "quad"   gates = controlled diagonal exp(-i dt [fac (x-x0)^2 + delta]).   *)
(*  "psq"    gates = controlled Dft^+ exp(-i dt p^2/2m) Dft.                  *)
(*  "adder"  gates = |v> -> |v + t mod N> on the register.                    *)
(*  "clock"  discrete-clock circuit: |x>|mp=0>|clk=c0> -> (U_applied|x>)      *)
(*           |0>|cfinal>, applied/cfinal from X07Defs!ClockApplied/Final.     *)
(*  "mp"     the code's step numbers k_j: TLC computes the exact multi-       *)
(*           product coefficients as residues (printed "MP") and checks the   *)
(*           order conditions.                                               *)
(***************************************************************************)
EXTENDS X07Defs

Jobs == JsonDeserialize(IOEnv.VERIF_JOBS)
VARIABLE ji

Classify(U, E, d) == IF U = E THEN "ok" ELSE IF EquivUpToPhase(U, E, d) THEN "wrong-phase" ELSE "wrong-unitary"

SelectVerdict(j) ==
  LET n == j.n
      d == Dim(n)
  IN IF ~AllWellFormed(j.gates, n) THEN "malformed-gate"
     ELSE IF ~(\A s \in 1..Len(j.stages) : StageOK(j.stages[s], n)) THEN "malformed-stage"
     ELSE Classify(UnitaryOf(j.gates, n),
                   TLCEval([col \in 1..d |-> StagesVec(j.stages, Basis(col - 1, n), n, 1)]), d)

BlockVerdict(j) ==
  LET n   == j.n
      d   == Dim(n)
      A0  == OpOfJson(j.op)
      \* oblivious amplitude amplification of a block A/2:  3/2 A - 1/2 A A^+ A   (= A when A is unitary)
      A   == IF j.oaa THEN OpSub(OpScale(Dyadic(3, 1), A0), OpScale(Dyadic(1, 1), OpMul(A0, OpMul(OpAdj(A0), A0, n), n))) ELSE A0
      nc  == Len(j.ctrl)
      nx  == Pow2(j.sys)
      inOn(xs)  == Basis(InIdx(xs, j.sys, j.ctrl, n), n)
      outs == TLCEval([x1 \in 1..nx |-> Run(inOn(x1 - 1), j.gates, n)])
      exps == TLCEval([x1 \in 1..nx |-> ApplyOp(A, inOn(x1 - 1), n)])
      \* rows with ancillas = 0 agree up to the factor zeta^p
      blockPh(p) == \A x1 \in 1..nx : \A x \in 1..d : ZeroOn(x - 1, j.anc, n) => outs[x1][x] = Mul(Zeta(p), exps[x1][x])
      exactOn == \A x1 \in 1..nx : outs[x1] = exps[x1]
      okOff(xs, S) == LET b == Basis(InIdx(xs, j.sys, SubSeqOf(j.ctrl, S), n), n) IN Run(b, j.gates, n) = b
  IN IF ~AllWellFormed(j.gates, n) THEN "malformed-gate"
     ELSE IF ~(\A t \in 1..Len(j.op) : Len(j.op[t].w) = n) THEN "malformed-op"
     ELSE IF ~blockPh(0) THEN (IF \E p \in 1..(M - 1) : blockPh(p) THEN "wrong-global-phase" ELSE "wrong-block")
     ELSE IF j.mode = "exact" /\ ~exactOn THEN "leak"
     ELSE IF ~(\A xs \in 0..(nx - 1) : \A S \in (SUBSET (1..nc)) \ {1..nc} : okOff(xs, S)) THEN "acts-when-control-off"
     ELSE "ok"

QuadVerdict(j) ==
  LET n == j.n
      d == Dim(n)
  IN IF ~AllWellFormed(j.gates, n) THEN "malformed-gate"
     ELSE IF ~(IsRegister(j.L \o j.ctrl, n) /\ QuadOK(j.C, j.R, Len(j.L))) THEN "malformed-job"
     ELSE Classify(UnitaryOf(j.gates, n),
                   TLCEval([col \in 1..d |-> QuadVec(j.L, j.ctrl, j.C, j.R, j.D, Basis(col - 1, n), n)]), d)

PsqVerdict(j) ==
  LET n == j.n
      d == Dim(n)
  IN IF ~AllWellFormed(j.gates, n) THEN "malformed-gate"
     ELSE IF ~(IsRegister(j.L \o j.ctrl, n) /\ Pow2(Len(j.L)) <= M) THEN "malformed-job"
     ELSE Classify(UnitaryOf(j.gates, n),
                   TLCEval([col \in 1..d |-> PsqVec(j.L, j.ctrl, j.C, Basis(col - 1, n), n)]), d)

AdderVerdict(j) ==
  LET n == j.n
      d == Dim(n)
  IN IF ~AllWellFormed(j.gates, n) THEN "malformed-gate"
     ELSE IF ~IsRegister(j.L, n) THEN "malformed-job"
     ELSE Classify(UnitaryOf(j.gates, n), TLCEval([col \in 1..d |-> Basis(AddIdx(col - 1, j.L, n, j.t), n)]), d)

\* clk is listed most significant qubit first (np.binary_repr pattern of the code)
ClockVerdict(j) ==
  LET n   == j.n
      d   == Dim(n)
      nb  == Len(j.clk)
      L   == RevSeq(j.clk)
      ap  == ClockApplied(j.T, nb, j.c0)
      cf  == ClockFinal(j.T, nb, j.c0)
      sg  == ConcatSteps(j.steps, ap, 1)
      inI(xs)  == SetReg(xs * Pow2(n - j.sys), L, n, j.c0)
      expV(xs) == Run(Basis(SetReg(xs * Pow2(n - j.sys), L, n, cf), n), sg, n)
      XS == 0..(Pow2(j.sys) - 1)
  IN IF ~AllWellFormed(j.gates, n) THEN "malformed-gate"
     ELSE IF ~(\A s \in 1..Len(j.steps) : AllWellFormed(j.steps[s], n)) \/ Len(j.steps) # j.T \/ j.c0 >= Pow2(nb) THEN "malformed-job"
     ELSE IF \A xs \in XS : Run(Basis(inI(xs), n), j.gates, n) = expV(xs) THEN "ok"
     ELSE IF \A xs \in XS : ProportionalVec(Run(Basis(inI(xs), n), j.gates, n), expV(xs), d) THEN "wrong-phase"
     ELSE "wrong-evolution"

MpVerdict(j) ==
  LET ks == j.ks
      r  == Len(ks)
      np == Len(MpPrimes)
  IN IF ~(\A a \in 1..r : ks[a] >= 1) \/ Cardinality(SeqSet(ks)) # r THEN "malformed-steps"
     ELSE IF ~(\A q \in 1..np : MpPrimeOK(ks, MpPrimes[q])) THEN "bad-prime"
     ELSE LET res == TLCEval([q \in 1..np |-> TLCEval([a \in 1..r |-> MpCoefMod(ks, a, MpPrimes[q])])])
          IN IF ~(\A q \in 1..np : MpOrderConditions(ks, res[q], MpPrimes[q])) THEN "order-conditions-fail"
             ELSE IF PrintT(<<"MP", ToJson([id |-> j.id, primes |-> MpPrimes, res |-> res,
                                           sign |-> TLCEval([a \in 1..r |-> MpSign(ks, a)])])>>) THEN "ok" ELSE "ok"

Verdict(j) == CASE j.kind = "select" -> SelectVerdict(j)
                [] j.kind = "block"  -> BlockVerdict(j)
                [] j.kind = "quad"   -> QuadVerdict(j)
                [] j.kind = "psq"    -> PsqVerdict(j)
                [] j.kind = "adder"  -> AdderVerdict(j)
                [] j.kind = "clock"  -> ClockVerdict(j)
                [] j.kind = "mp"     -> MpVerdict(j)
                [] OTHER -> "unknown-kind"

JInit == ji \in 1..Len(Jobs)
JNext == ji > 0 /\ PrintT(<<"V", Jobs[ji].id, Verdict(Jobs[ji])>>) /\ ji' = 0
=============================================================================
